import sys, itertools, time, warnings, collections
sys.path.insert(0,'/repo'); warnings.simplefilter('ignore')
from fractions import Fraction as Fr
import chempy.units as cu
from chempy.units import default_units as u, to_unitless, get_physical_dimensionality, unitless_in_registry, default_unit_in_registry, SI_base_registry
import quantities as pq
mmol=pq.UnitQuantity('mmol_', pq.mol/1000, symbol='mmol_'); umol=u.micromole
DIMS=['length','mass','time','current','temperature','amount']
UN={'length':[(u.metre,Fr(1)),(u.centimetre,Fr(1,100)),(u.nanometre,Fr(1,10**9))],
    'mass':[(u.kilogram,Fr(1)),(u.gram,Fr(1,1000))],
    'time':[(u.second,Fr(1)),(u.minute,Fr(60)),(u.hour,Fr(3600))],
    'current':[(u.ampere,Fr(1)),(u.milliampere,Fr(1,1000))],
    'temperature':[(u.kelvin,Fr(1))],
    'amount':[(u.mole,Fr(1)),(mmol,Fr(1,1000)),(umol,Fr(1,10**6))]}
def vecs(k):
    out=[]
    for e in itertools.product(range(-2,3),repeat=6):
        if 0<sum(map(abs,e))<=k: out.append(e)
    return out
def spellings(e):
    nz=[i for i,x in enumerate(e) if x]
    for ch in itertools.product(*[range(len(UN[DIMS[i]])) for i in nz]):
        q=1; f=Fr(1)
        for i,c in zip(nz,ch):
            uq,uf=UN[DIMS[i]][c]; q=q*uq**e[i]; f*=uf**e[i]
        yield ch,q,f
K=int(sys.argv[1]); V=vecs(K); print(len(V))
bad=[]; n=0; worst=0; t0=time.time()
for e in V:
    sp=list(spellings(e))
    for (c1,q1,f1) in sp:
        d=get_physical_dimensionality(3*q1)
        exp={DIMS[i]:x for i,x in enumerate(e) if x}
        if {k:int(v) for k,v in d.items()}!=exp: bad.append(('dim',e,c1,d))
        for (c2,q2,f2) in sp:
            n+=1
            try:
                got=to_unitless(2.5e-7*q1,q2); ref=float(Fr(25,10**8)*f1/f2)
                rel=abs(got-ref)/abs(ref); worst=max(worst,rel)
                if rel>1e-12: bad.append(('conv',e,c1,c2,got,ref))
            except Exception as ex: bad.append(('exc',e,c1,c2,repr(ex)[:60]))
    # incompatible
    q1=sp[0][1]
    for i in range(6):
        for dlt in (1,-1):
            e2=list(e); e2[i]+=dlt
            if not any(e2):
                tgt=pq.dimensionless
            else:
                tgt=1
                for j,x in enumerate(e2):
                    if x: tgt=tgt*UN[DIMS[j]][0][0]**x
            try:
                r=to_unitless(3*q1,tgt); bad.append(('incompat-accepted',e,tuple(e2),r))
            except Exception: pass
print(n,len(bad),worst,time.time()-t0)
print(collections.Counter(b[0] for b in bad))
for b in bad[:10]: print(b)
